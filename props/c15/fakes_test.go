package c15

import (
	"fmt"
	"io"
	"sync"
	"sync/atomic"

	"github.com/buildbarn/bb-remote-execution/pkg/filesystem/pool"
	"github.com/buildbarn/bb-storage/pkg/filesystem"

	"google.golang.org/grpc/codes"
	"google.golang.org/grpc/status"
)

// errInjected is the error returned by every injected fault. The oracle
// recognises it by identity or by message (in case the code wraps it).
var errInjected = status.Error(codes.Internal, "verif: injected fault")

func isInjected(err error) bool {
	if err == nil {
		return false
	}
	if err == errInjected {
		return true
	}
	return status.Convert(err).Message() != "" && containsInjected(err.Error())
}

func containsInjected(s string) bool {
	const needle = "verif: injected fault"
	for i := 0; i+len(needle) <= len(s); i++ {
		if s[i:i+len(needle)] == needle {
			return true
		}
	}
	return false
}

type faultKind int

const (
	faultNone faultKind = iota
	faultDevRead
	faultDevWrite
	faultHoleRead
	faultHoleTruncate
	faultBaseNewFile
	faultDevShortRead  // device ReadAt returns fewer bytes without an error
	faultHoleShortRead // hole source ReadAt returns fewer bytes without an error
	faultHoleSeek      // hole source GetNextRegionOffset fails
	faultBaseTruncate  // the file of the base pool fails Truncate (no effect)
	faultHoleClose     // hole source Close fails (the hole source is closed nevertheless)
	faultKinds
)

func (k faultKind) String() string {
	return [...]string{"none", "devRead", "devWrite", "holeRead", "holeTruncate", "baseNewFile", "devShortRead", "holeShortRead", "holeSeek", "baseTruncate", "holeClose", "?"}[k]
}

// faultPlan arms at most one fault for the duration of one harness-level
// operation (stepped mode only; single goroutine).
type faultPlan struct {
	kind      faultKind
	countdown int
	short     bool // devWrite: write half of the buffer, then fail

	fired          bool
	firedKind      faultKind
	firedAfterOpAl bool // an allocation happened in this operation before the fault fired
}

func (fp *faultPlan) arm(kind faultKind, countdown int, short bool) {
	*fp = faultPlan{kind: kind, countdown: countdown, short: short}
}

func (fp *faultPlan) disarm() { fp.kind = faultNone }

func (fp *faultPlan) hit(kind faultKind) bool {
	if fp == nil || fp.kind != kind {
		return false
	}
	if fp.countdown > 0 {
		fp.countdown--
		return false
	}
	fp.kind = faultNone
	fp.fired = true
	fp.firedKind = kind
	return true
}

// reporter is how the fakes report oracle hits; implemented by the case
// environment.
type reporter interface {
	violate(rule, detail string)
}

// ---------------------------------------------------------------------------
// Sector allocator monitor.

const poisonByte = 0xEE

// monAllocator wraps the real SectorAllocator and keeps the live set.
type monAllocator struct {
	base     pool.SectorAllocator
	capacity int
	rep      reporter
	dev      *memDevice
	stepped  bool

	mu        sync.Mutex
	owner     []int32 // index 1..capacity; 0 = free, else owner id + 1
	lastOwner []int32 // owner id + 1 of the most recent previous holder
	liveCount int

	// Fragmentation forcing (stepped mode): clamp "maximum".
	clamp func(maximum int) int
	// Current owner (stepped mode: the file being operated on), -1 unknown.
	currentOwner int32

	// Per-operation observations (stepped mode).
	opAllocCalls  int
	opShortAllocs int
	opExhausted   bool
	opReuse       bool

	allocCalls, freeCalls, sectorsAllocated, sectorsFreed atomic.Int64
}

func newMonAllocator(base pool.SectorAllocator, capacity int, rep reporter, stepped bool) *monAllocator {
	return &monAllocator{
		base:         base,
		capacity:     capacity,
		rep:          rep,
		stepped:      stepped,
		owner:        make([]int32, capacity+2),
		lastOwner:    make([]int32, capacity+2),
		currentOwner: -1,
	}
}

func (m *monAllocator) resetOp() {
	m.opAllocCalls, m.opShortAllocs, m.opExhausted, m.opReuse = 0, 0, false, false
}

func (m *monAllocator) live() int {
	m.mu.Lock()
	defer m.mu.Unlock()
	return m.liveCount
}

func (m *monAllocator) isLive(sector int) (bool, int32) {
	m.mu.Lock()
	defer m.mu.Unlock()
	if sector < 1 || sector > m.capacity {
		return false, 0
	}
	return m.owner[sector] != 0, m.owner[sector] - 1
}

func (m *monAllocator) AllocateContiguous(maximum int) (uint32, int, error) {
	m.allocCalls.Add(1)
	req := maximum
	if m.clamp != nil {
		req = m.clamp(maximum)
	}
	if maximum < 1 {
		m.rep.violate("allocator-called-with-nonpositive-maximum", fmt.Sprintf("AllocateContiguous(%d)", maximum))
	}
	first, n, err := m.base.AllocateContiguous(req)
	if err != nil {
		if m.stepped {
			m.opExhausted = true
			if l := m.live(); l != m.capacity {
				m.rep.violate("allocator-failed-with-free-sectors", fmt.Sprintf("AllocateContiguous(%d) failed with %v while only %d of %d sectors are live", req, err, l, m.capacity))
			}
		}
		if status.Code(err) != codes.ResourceExhausted {
			m.rep.violate("allocator-unexpected-error", fmt.Sprintf("AllocateContiguous(%d): %v", req, err))
		}
		return first, n, err
	}
	if n < 1 || n > req || first < 1 || int(first)+n-1 > m.capacity {
		m.rep.violate("allocator-range-invalid", fmt.Sprintf("AllocateContiguous(%d) = (%d, %d) with capacity %d", req, first, n, m.capacity))
		return first, n, err
	}
	m.mu.Lock()
	for s := int(first); s < int(first)+n; s++ {
		if m.owner[s] != 0 {
			m.mu.Unlock()
			m.rep.violate("sector-handed-out-twice", fmt.Sprintf("AllocateContiguous(%d) = (%d, %d): sector %d is still live", req, first, n, s))
			return first, n, err
		}
		m.owner[s] = m.currentOwner + 1
		if m.owner[s] == 0 {
			m.owner[s] = 1 << 30
		}
		if lo := m.lastOwner[s]; lo != 0 && lo != m.owner[s] {
			m.opReuse = true
		}
	}
	m.liveCount += n
	m.mu.Unlock()
	m.sectorsAllocated.Add(int64(n))
	if m.stepped {
		m.opAllocCalls++
		if n < maximum {
			m.opShortAllocs++
		}
	}
	return first, n, nil
}

// release marks sectors as free and poisons them on the device. Returns
// false if a sector was not live (the free is then not forwarded, because
// the real allocator would panic and take the whole run down).
func (m *monAllocator) release(sectors []uint32, what string) bool {
	m.mu.Lock()
	for _, s := range sectors {
		if s == 0 {
			continue
		}
		if int(s) > m.capacity || m.owner[s] == 0 {
			m.mu.Unlock()
			m.rep.violate("free-of-sector-not-allocated", fmt.Sprintf("%s frees sector %d which is not live", what, s))
			return false
		}
		m.lastOwner[s] = m.owner[s]
		m.owner[s] = 0
		m.liveCount--
		m.sectorsFreed.Add(1)
		// Still exclusively ours: the base allocator has not
		// been told yet, so nobody else can be handed this sector.
		m.dev.poison(int(s))
	}
	m.mu.Unlock()
	return true
}

func (m *monAllocator) FreeContiguous(first uint32, count int) {
	m.freeCalls.Add(1)
	if first == 0 || count < 1 {
		m.rep.violate("free-contiguous-invalid-argument", fmt.Sprintf("FreeContiguous(%d, %d)", first, count))
		return
	}
	l := make([]uint32, count)
	for i := range l {
		l[i] = first + uint32(i)
	}
	if m.release(l, fmt.Sprintf("FreeContiguous(%d, %d)", first, count)) {
		m.base.FreeContiguous(first, count)
	}
}

func (m *monAllocator) FreeList(sectors []uint32) {
	m.freeCalls.Add(1)
	if m.release(sectors, "FreeList") {
		m.base.FreeList(sectors)
	}
}

// ---------------------------------------------------------------------------
// Memory block device.

type memDevice struct {
	ss       int
	capacity int
	data     []byte
	mon      *monAllocator
	rep      reporter
	plan     *faultPlan
	eofAtEnd bool

	reads, writes atomic.Int64

	// Concurrent mode: every concFaultEvery-th write fails (0 = never),
	// alternately after storing nothing and after storing half of it.
	concFaultEvery atomic.Int64
	concFaults     atomic.Int64
}

func newMemDevice(ss, capacity int, rep reporter) *memDevice {
	d := &memDevice{ss: ss, capacity: capacity, data: make([]byte, ss*capacity), rep: rep}
	for i := range d.data {
		d.data[i] = poisonByte
	}
	return d
}

func (d *memDevice) poison(sector int) {
	b := d.data[(sector-1)*d.ss : sector*d.ss]
	for i := range b {
		b[i] = poisonByte
	}
}

// checkRange verifies that the I/O only touches live sectors (and, in
// stepped mode, sectors of the file being operated on).
func (d *memDevice) checkRange(op string, n int, off int64) bool {
	if off < 0 || off+int64(n) > int64(len(d.data)) {
		d.rep.violate("device-access-out-of-range op="+op, fmt.Sprintf("%s of %d bytes at %d on a device of %d bytes", op, n, off, len(d.data)))
		return false
	}
	if n == 0 {
		return true
	}
	for s := int(off/int64(d.ss)) + 1; s <= int((off+int64(n)-1)/int64(d.ss))+1; s++ {
		live, owner := d.mon.isLive(s)
		if !live {
			d.rep.violate("device-access-to-free-sector op="+op, fmt.Sprintf("%s of %d bytes at %d touches sector %d which is not allocated", op, n, off, s))
			return false
		}
		if cur := d.mon.currentOwner; d.mon.stepped && cur >= 0 && owner != cur && owner != (1<<30)-1 {
			d.rep.violate("device-access-to-foreign-sector op="+op, fmt.Sprintf("%s by file %d touches sector %d owned by file %d", op, cur, s, owner))
			return false
		}
	}
	return true
}

func (d *memDevice) ReadAt(p []byte, off int64) (int, error) {
	d.reads.Add(1)
	if !d.checkRange("read", len(p), off) {
		return 0, status.Error(codes.Internal, "verif: invalid device access")
	}
	if d.plan.hit(faultDevRead) {
		return 0, errInjected
	}
	if d.plan.hit(faultDevShortRead) {
		// Half of the bytes, no error (or EOF, which io.ReaderAt
		// also permits for a short read).
		k := copy(p[:len(p)/2], d.data[off:])
		if d.plan.short {
			return k, io.EOF
		}
		return k, nil
	}
	n := copy(p, d.data[off:])
	if d.eofAtEnd && off+int64(n) == int64(len(d.data)) {
		return n, io.EOF
	}
	return n, nil
}

func (d *memDevice) WriteAt(p []byte, off int64) (int, error) {
	seq := d.writes.Add(1)
	if !d.checkRange("write", len(p), off) {
		return 0, status.Error(codes.Internal, "verif: invalid device access")
	}
	if every := d.concFaultEvery.Load(); every > 0 && seq%every == 0 {
		d.concFaults.Add(1)
		if (seq/every)%2 == 0 && len(p) > 1 {
			k := len(p) / 2
			copy(d.data[off:], p[:k])
			return k, errInjected
		}
		return 0, errInjected
	}
	if d.plan.hit(faultDevWrite) {
		d.plan.firedAfterOpAl = d.mon.opAllocCalls > 0
		if d.plan.short && len(p) > 1 {
			k := len(p) / 2
			copy(d.data[off:], p[:k])
			return k, errInjected
		}
		return 0, errInjected
	}
	return copy(d.data[off:], p), nil
}

func (d *memDevice) Sync() error  { return nil }
func (d *memDevice) Close() error { return nil }

// ---------------------------------------------------------------------------
// Hole sources.

// holePattern describes the immutable initial contents of a hole source:
// data runs alternate with holes every runLen bytes (runLen 0: all data)
// below limit, null bytes beyond.
type holePattern struct {
	zero   bool
	id     int
	salt   uint64
	runLen int64
}

func (hp holePattern) isData(o int64) bool {
	if hp.zero {
		return false
	}
	if hp.runLen == 0 {
		return true
	}
	return (o/hp.runLen)%2 == 0
}

// at returns the byte at offset o of the untruncated pattern.
func (hp holePattern) at(o int64) byte {
	if !hp.isData(o) {
		return 0
	}
	return byte(1 + (uint64(o)*31+uint64(hp.id)*97+hp.salt)%255)
}

// monHoleSource is the HoleSource handed to the pool. For zero patterns it
// delegates to the real pool.ZeroHoleSource, otherwise it serves the
// pattern. It counts Close calls and injects faults.
type monHoleSource struct {
	pattern holePattern
	limit   int64
	rep     reporter
	plan    *faultPlan

	closed    atomic.Int32
	reads     atomic.Int64
	truncates atomic.Int64
}

func (h *monHoleSource) checkOpen(op string) {
	if h.closed.Load() != 0 {
		h.rep.violate("hole-source-used-after-close op="+op, "hole source of file used after Close")
	}
}

func (h *monHoleSource) Close() error {
	if h.closed.Add(1) != 1 {
		h.rep.violate("hole-source-closed-twice", "HoleSource.Close called more than once")
	}
	if h.plan.hit(faultHoleClose) {
		return errInjected
	}
	if h.pattern.zero {
		return pool.ZeroHoleSource.Close()
	}
	return nil
}

func (h *monHoleSource) ReadAt(p []byte, off int64) (int, error) {
	h.checkOpen("ReadAt")
	h.reads.Add(1)
	if off < 0 {
		h.rep.violate("hole-source-negative-offset", fmt.Sprintf("HoleSource.ReadAt at %d", off))
		return 0, status.Error(codes.InvalidArgument, "negative offset")
	}
	if h.plan.hit(faultHoleRead) {
		return 0, errInjected
	}
	if h.plan.hit(faultHoleShortRead) {
		p = p[:len(p)/2]
		if h.pattern.zero {
			return pool.ZeroHoleSource.ReadAt(p, off)
		}
		for i := range p {
			if o := off + int64(i); o < h.limit {
				p[i] = h.pattern.at(o)
			} else {
				p[i] = 0
			}
		}
		return len(p), nil
	}
	if h.pattern.zero {
		return pool.ZeroHoleSource.ReadAt(p, off)
	}
	for i := range p {
		o := off + int64(i)
		if o < h.limit {
			p[i] = h.pattern.at(o)
		} else {
			p[i] = 0
		}
	}
	return len(p), nil
}

func (h *monHoleSource) Truncate(size int64) error {
	h.checkOpen("Truncate")
	h.truncates.Add(1)
	if h.plan.hit(faultHoleTruncate) {
		return errInjected
	}
	if h.pattern.zero {
		return pool.ZeroHoleSource.Truncate(size)
	}
	if size < h.limit {
		h.limit = size
	}
	return nil
}

func (h *monHoleSource) GetNextRegionOffset(off int64, regionType filesystem.RegionType) (int64, error) {
	h.checkOpen("GetNextRegionOffset")
	if h.plan.hit(faultHoleSeek) {
		return 0, errInjected
	}
	if h.pattern.zero {
		return pool.ZeroHoleSource.GetNextRegionOffset(off, regionType)
	}
	if off >= h.limit {
		return 0, io.EOF
	}
	switch regionType {
	case filesystem.Data:
		if h.pattern.isData(off) {
			return off, nil
		}
		next := (off/h.pattern.runLen + 1) * h.pattern.runLen
		if next < h.limit {
			return next, nil
		}
		return 0, io.EOF
	case filesystem.Hole:
		if !h.pattern.isData(off) {
			return off, nil
		}
		if h.pattern.runLen == 0 {
			return h.limit, nil
		}
		next := (off/h.pattern.runLen + 1) * h.pattern.runLen
		if next > h.limit {
			next = h.limit
		}
		return next, nil
	default:
		panic("unknown region type")
	}
}

// ---------------------------------------------------------------------------
// Base pool with NewFile faults.

type faultyPool struct {
	base  pool.FilePool
	plan  *faultPlan
	calls atomic.Int64
}

func (fp *faultyPool) NewFile(holeSource pool.HoleSource, size uint64) (filesystem.FileReadWriter, error) {
	fp.calls.Add(1)
	if fp.plan.hit(faultBaseNewFile) {
		return nil, errInjected
	}
	f, err := fp.base.NewFile(holeSource, size)
	if err != nil {
		return nil, err
	}
	return &faultyFile{FileReadWriter: f, plan: fp.plan}, nil
}

// faultyFile is a file of the base pool whose Truncate can fail without
// having any effect (the block device backed file itself cannot fail when
// growing).
type faultyFile struct {
	filesystem.FileReadWriter
	plan *faultPlan
}

func (f *faultyFile) Truncate(size int64) error {
	if size >= 0 && f.plan.hit(faultBaseTruncate) {
		return errInjected
	}
	return f.FileReadWriter.Truncate(size)
}

// ---------------------------------------------------------------------------
// Gate: parks one call of the base layer under the quota pool.

// gateKind names the base call a gate parks.
type gateKind int

const (
	gateNone           gateKind = iota
	gateShrinkTruncate          // Truncate below the present size of the base file
	gateGrowTruncate            // Truncate beyond the present size of the base file
	gateGrowWrite               // WriteAt ending beyond the present size of the base file
	gateNewFile                 // NewFile of the base pool
	gateClose                   // Close of the base file
	gateKinds
)

func (k gateKind) String() string {
	return [...]string{"none", "shrink-truncate", "grow-truncate", "grow-write", "newfile", "close", "?"}[k]
}

// gate is owned by the driver. It is one-shot: the first base call of the
// armed kind takes it, closes arrived (the handshake the driver waits for;
// nothing ever sleeps) and blocks until the driver sends the verdict. Calls
// that arrive later pass straight through.
type gate struct {
	kind    gateKind
	short   bool          // a failing WriteAt stores the first half of the buffer
	arrived chan struct{} // closed by the fake once the call is parked
	verdict chan bool     // sent by the driver: true = the parked call fails
}

// gatedPool sits between the quota layer and the harness' base pool. A
// parked call has had no effect yet; when released it is either forwarded
// or fails: Truncate and NewFile without any effect, WriteAt after storing
// nothing or a prefix, Close after closing the file.
type gatedPool struct {
	base pool.FilePool

	mu    sync.Mutex
	armed *gate
}

func (gp *gatedPool) arm(kind gateKind, short bool) *gate {
	g := &gate{kind: kind, short: short, arrived: make(chan struct{}), verdict: make(chan bool)}
	gp.mu.Lock()
	gp.armed = g
	gp.mu.Unlock()
	return g
}

func (gp *gatedPool) disarm() {
	gp.mu.Lock()
	gp.armed = nil
	gp.mu.Unlock()
}

// park blocks the calling base call if a gate for its kind is armed and
// returns the gate and the verdict (nil if the call was not parked).
func (gp *gatedPool) park(kind gateKind) (*gate, bool) {
	gp.mu.Lock()
	g := gp.armed
	if g == nil || kind == gateNone || g.kind != kind {
		gp.mu.Unlock()
		return nil, false
	}
	gp.armed = nil
	gp.mu.Unlock()
	close(g.arrived)
	return g, <-g.verdict
}

func (gp *gatedPool) NewFile(holeSource pool.HoleSource, size uint64) (filesystem.FileReadWriter, error) {
	if g, fail := gp.park(gateNewFile); g != nil && fail {
		return nil, errInjected
	}
	f, err := gp.base.NewFile(holeSource, size)
	if err != nil {
		return nil, err
	}
	return &gatedFile{FileReadWriter: f, gp: gp}, nil
}

type gatedFile struct {
	filesystem.FileReadWriter
	gp *gatedPool
}

func (f *gatedFile) Truncate(size int64) error {
	kind := gateNone
	if l, err := f.FileReadWriter.Len(); err == nil && size >= 0 {
		if size < l {
			kind = gateShrinkTruncate
		} else if size > l {
			kind = gateGrowTruncate
		}
	}
	if g, fail := f.gp.park(kind); g != nil && fail {
		return errInjected
	}
	return f.FileReadWriter.Truncate(size)
}

func (f *gatedFile) WriteAt(p []byte, off int64) (int, error) {
	kind := gateNone
	if l, err := f.FileReadWriter.Len(); err == nil && off >= 0 && off+int64(len(p)) > l {
		kind = gateGrowWrite
	}
	if g, fail := f.gp.park(kind); g != nil && fail {
		if g.short && len(p) > 1 {
			n, err := f.FileReadWriter.WriteAt(p[:len(p)/2], off)
			if err != nil {
				return n, err
			}
			return n, errInjected
		}
		return 0, errInjected
	}
	return f.FileReadWriter.WriteAt(p, off)
}

func (f *gatedFile) Close() error {
	g, fail := f.gp.park(gateClose)
	err := f.FileReadWriter.Close()
	if g != nil && fail && err == nil {
		return errInjected
	}
	return err
}
