package c15

import (
	"fmt"

	"github.com/buildbarn/bb-remote-execution/pkg/filesystem/pool"
	"github.com/buildbarn/bb-storage/pkg/filesystem"

	"verif/internal/ev"
)

// Gated windows of the quota layer.
//
// A call of the quota layer on file A (or NewFile) is started on its own
// goroutine; the base call it makes parks on a gate (fakes_test.go) and
// signals its arrival. While it is parked nothing else runs, and the driver
// issues a quota-consuming call (the intruder) on another file of the same
// pool. It is sized in one of two ways: so that it can only be granted if the
// bytes (or the file count) that are contested by the parked call were handed
// to it, or ("fitting") so that it fits into what is free in any case and has
// to be granted, which moves the counters while the other call is in flight.
// Then the driver releases the gate with a verdict: the parked base call
// succeeds or fails. Every step is ordered by channel handshakes, so a window
// is one fixed interleaving and not a matter of scheduling.
//
// Oracles (sound for any implementation, no matter where it linearises its
// bookkeeping inside the window):
//
//   - the lower bounds of contention_test.go: quota a call releases is
//     subtracted before the call is made, quota a call takes (or keeps,
//     because its release failed) is added after it has returned. After both
//     calls have returned the bounds equal the sizes and the number of the
//     open files; more than the maximum means that the intruder was given
//     what the other call still owns (quota-*-overcommitted);
//   - at that point, and again after every file was closed, exactly the
//     rest of the quota is available (probeQuota, probeFiles, finalProofs);
//   - an intruder that is granted what a releasing call (shrink, close) that
//     eventually succeeds gives back is not flagged, nor is a parked growing
//     call that is denied after the intruder was granted what it had asked
//     for; a fitting intruder is free at every point of the window and has to
//     be granted (the decision oracle of the stepped cases).

type windowIntruder int

const (
	intruderWriter       windowIntruder = iota // WriteAt past the end of file B
	intruderGrowTruncate                       // growing Truncate of file B
	intruderNewFileSized                       // NewFile with an initial size
	intruderNewFileEmpty                       // NewFile(0) when the file count is used up
)

func (k windowIntruder) String() string {
	return [...]string{"writer", "grow-truncate", "newfile-sized", "newfile-empty"}[k]
}

type windowCombo struct {
	parked   gateKind
	fails    bool
	intruder windowIntruder
	fits     bool // the intruder fits into the quota that is free in any case
}

func (c windowCombo) name() string {
	outcome := "succeeds"
	if c.fails {
		outcome = "fails"
	}
	fitting := ""
	if c.fits {
		fitting = "fitting-"
	}
	return fmt.Sprintf("quota-window:%s-parked-then-%s-with-%s%s", c.parked, outcome, fitting, c.intruder)
}

// windowCombos is the fixed list of windows: every parked call kind, both
// outcomes, every intruder that asks for bytes, for the calls that hold a
// file count (NewFile, Close) the intruder that asks for a file only, and
// both ways of sizing the intruder.
var windowCombos = func() []windowCombo {
	var l []windowCombo
	for k := gateShrinkTruncate; k <= gateClose; k++ {
		for _, fails := range []bool{false, true} {
			for _, fits := range []bool{false, true} {
				for _, in := range []windowIntruder{intruderWriter, intruderGrowTruncate, intruderNewFileSized} {
					l = append(l, windowCombo{k, fails, in, fits})
				}
				if k == gateNewFile || k == gateClose {
					l = append(l, windowCombo{k, fails, intruderNewFileEmpty, fits})
				}
			}
		}
	}
	return l
}()

const (
	sitWindowIntruderDenied  = "quota-window:intruder-denied"
	sitWindowIntruderGranted = "quota-window:intruder-granted"
	sitWindowParkedDenied    = "quota-window:parked-call-denied-after-intruder-was-granted"
	sitWindowNotReached      = "quota-window:base-call-not-reached"
)

// windowFloors lists the situations every run has to reach.
func windowFloors() []string {
	l := []string{sitWindowIntruderDenied, sitWindowIntruderGranted}
	for _, c := range windowCombos {
		l = append(l, c.name())
	}
	return l
}

type windowCase struct {
	e     *env
	gp    *gatedPool
	tag   string
	files []*openFile
}

// fresh returns a payload that stays valid while other payloads are made.
func (w *windowCase) fresh(n int64) []byte {
	return append([]byte(nil), w.e.payload(int(n))...)
}

func (w *windowCase) holeSource(id int, size int64) (*monHoleSource, holePattern) {
	e := w.e
	pattern := holePattern{zero: true}
	if size > 0 && e.rng.IntN(2) == 0 {
		pattern = holePattern{id: id, salt: e.rng.Uint64N(1 << 20), runLen: e.rng.Int64N(2 * int64(e.c.SS))}
	}
	return &monHoleSource{pattern: pattern, limit: size, rep: e}, pattern
}

// seqWrite and seqTruncate are calls outside a window that must succeed.
func (w *windowCase) seqWrite(of *openFile, p []byte, off int64) bool {
	e := w.e
	e.logOp(fmt.Sprintf("write f%d off=%d len=%d", of.m.id, off, len(p)))
	n, err := of.f.WriteAt(p, off)
	e.logResult(fmt.Sprintf("%d,%s", n, errClass(err)))
	if n != len(p) || err != nil {
		e.violate("unexpected-error op=write code="+errClass(err), fmt.Sprintf("window setup: WriteAt(len %d, off %d) on file %d of size %d = (%d, %v)", len(p), off, of.m.id, of.m.size, n, err))
		return false
	}
	old := of.m.size
	of.m.write(p, off)
	e.acquired(0, of.m.size-old, "write")
	return true
}

func (w *windowCase) seqTruncate(of *openFile, size int64) bool {
	e := w.e
	e.logOp(fmt.Sprintf("truncate f%d size=%d (was %d)", of.m.id, size, of.m.size))
	if size < of.m.size {
		e.releasing(0, of.m.size-size)
	}
	err := of.f.Truncate(size)
	e.logResult(errClass(err))
	if err != nil {
		e.violate("unexpected-error op=truncate code="+errClass(err), fmt.Sprintf("window setup: Truncate(%d) on file %d of size %d: %v", size, of.m.id, of.m.size, err))
		return false
	}
	old := of.m.size
	of.m.truncate(size)
	if size > old {
		e.acquired(0, size-old, "truncate")
	}
	return true
}

// create makes a file of the given size by one of three routes: created at
// that size, created empty and written, created empty and truncated.
func (w *windowCase) create(size int64) *openFile {
	e := w.e
	id := e.nextID
	e.nextID++
	route := e.rng.IntN(3)
	initial := int64(0)
	if route == 0 {
		initial = size
	}
	hs, pattern := w.holeSource(id, initial)
	e.logOp(fmt.Sprintf("newfile f%d size=%d hole=%s", id, initial, patternName(pattern)))
	f, err := e.q.NewFile(hs, uint64(initial))
	e.logResult(errClass(err))
	if err != nil {
		e.violate("unexpected-error op=newfile code="+errClass(err), fmt.Sprintf("window setup: NewFile(size %d): %v", initial, err))
		return nil
	}
	e.acquired(1, initial, "newfile")
	of := &openFile{f: f, m: newFileModel(id, initial, pattern, initial, e.c.SS), hs: hs}
	w.files = append(w.files, of)
	if size > initial {
		if route == 1 {
			if !w.seqWrite(of, w.fresh(size), 0) {
				return nil
			}
		} else if !w.seqTruncate(of, size) {
			return nil
		}
	}
	if size > 0 && e.rng.IntN(2) == 0 {
		// Some data inside the file.
		off := e.rng.Int64N(size)
		if !w.seqWrite(of, w.fresh(1+e.rng.Int64N(size-off)), off) {
			return nil
		}
	}
	return of
}

func (w *windowCase) remove(of *openFile) {
	for i, o := range w.files {
		if o == of {
			w.files = append(w.files[:i], w.files[i+1:]...)
			return
		}
	}
}

// probeFiles proves the number of files still available: exactly that many
// empty files can be created.
func (e *env) probeFiles(after string) {
	if e.isAborted() || e.c.NoQuota {
		return
	}
	want := e.c.MaxFiles - e.filesOpen
	e.logOp(fmt.Sprintf("probe-files expecting %d files remaining", want))
	res := "ok"
	var fs []filesystem.FileReadWriter
	for i := 0; i < want; i++ {
		f, err := e.q.NewFile(&monHoleSource{pattern: holePattern{zero: true}, rep: e}, 0)
		if err != nil {
			res = "less"
			e.violate("quota-files-not-conserved after="+after+" direction=less-available", fmt.Sprintf("model: %d of %d files open, but only %d further files can be created: %v", e.filesOpen, e.c.MaxFiles, i, err))
			break
		}
		fs = append(fs, f)
	}
	if len(fs) == want {
		if f, err := e.q.NewFile(&monHoleSource{pattern: holePattern{zero: true}, rep: e}, 0); err == nil {
			res = "more"
			fs = append(fs, f)
			e.violate("quota-files-not-conserved after="+after+" direction=more-available", fmt.Sprintf("model: %d of %d files open, but %d further files can be created", e.filesOpen, e.c.MaxFiles, want+1))
		} else if !isQuotaErr(err, "File count quota reached") {
			e.violate("unexpected-error op=probe-newfile code="+errClass(err), err.Error())
		}
	}
	for _, f := range fs {
		if err := f.Close(); err != nil {
			e.violate("unexpected-error op=close code="+errClass(err), err.Error())
		}
	}
	e.logResult(res)
	e.r.Count("quota_file_probes", 1)
}

// windowResult is what the parked call returned.
type windowResult struct {
	f   filesystem.FileReadWriter
	n   int
	err error
}

// runQuotaWindow runs one window of the fixed list on a fresh pool.
func runQuotaWindow(r *ev.Run, round, ci int) {
	combo := windowCombos[ci]
	tag := combo.name()
	rng := r.Rand(6, uint64(round), uint64(ci))
	ss := []int{1, 7, 16, 64}[rng.IntN(4)]

	// d: the bytes contested by the parked call (what it gives back, or
	// what it has reserved). slack: bytes that are free in any case. x: the
	// bytes the intruder asks for: slack < x <= slack + d, or 1 <= x <= slack
	// for a fitting intruder.
	var d int64
	switch rng.IntN(3) {
	case 0:
		d = 1
	case 1:
		d = 1 + rng.Int64N(8)
	default:
		d = 1 + rng.Int64N(300)
	}
	if combo.intruder == intruderNewFileEmpty && rng.IntN(2) == 0 {
		d = 0
	}
	slack := []int64{0, 0, 1, rng.Int64N(20)}[rng.IntN(4)]
	var x int64
	if combo.fits {
		slack++
	}
	if combo.intruder != intruderNewFileEmpty {
		if combo.fits {
			x = []int64{1, slack, 1 + rng.Int64N(slack)}[rng.IntN(3)]
		} else {
			x = slack + []int64{1, d, 1 + rng.Int64N(d)}[rng.IntN(3)]
		}
	}
	rest := []int64{0, rng.Int64N(100)}[rng.IntN(2)]

	hasA := combo.parked != gateNewFile
	hasB := combo.intruder == intruderWriter || combo.intruder == intruderGrowTruncate || rng.IntN(2) == 0
	hasC := rng.IntN(3) == 0
	var sA, tA, sB, sC int64
	switch combo.parked {
	case gateShrinkTruncate:
		sA, tA = rest+d, rest
	case gateGrowTruncate, gateGrowWrite:
		sA, tA = rest, rest+d
	case gateClose:
		sA = d
	}
	if hasB {
		sB = []int64{0, rng.Int64N(100)}[rng.IntN(2)]
	}
	if hasC {
		sC = 1 + rng.Int64N(50)
	}
	maxBytes := sA + sB + sC + slack
	nOpen := 0
	for _, has := range []bool{hasA, hasB, hasC} {
		if has {
			nOpen++
		}
	}
	switch combo.parked {
	case gateGrowTruncate, gateGrowWrite:
		maxBytes += d
	case gateNewFile:
		maxBytes += d
		nOpen++
	}
	maxFiles := nOpen
	switch combo.intruder {
	case intruderNewFileEmpty:
		// The file count is contested, unless the intruder is to fit.
		if combo.fits {
			maxFiles += 1 + rng.IntN(2)
		}
	case intruderNewFileSized:
		maxFiles += 1 + rng.IntN(2)
	default:
		maxFiles += rng.IntN(3)
	}

	c := cfg{Profile: "quota-window", SS: ss, MaxFiles: maxFiles, MaxBytes: maxBytes, Slots: nOpen + 2}
	// Room for everything, even if the quota were handed out twice.
	c.Capacity = int((2*maxBytes+x)/int64(ss)) + 4*(nOpen+3) + 8
	c.MaxLogical = 2*maxBytes + x
	caseIdx := round*len(windowCombos) + ci
	r.Case("quota-window round=%d combo=%d %s contested=%d slack=%d intruder_bytes=%d cfg=%+v", round, ci, tag, d, slack, x, c)
	e := newEnv(r, c, "quota-window", caseIdx, rng)
	e.schedule = tag
	w := &windowCase{e: e, gp: &gatedPool{base: e.base}, tag: tag}
	e.q = pool.NewQuotaEnforcingFilePool(w.gp, uint64(maxFiles), uint64(maxBytes))
	defer e.finishCase()

	// Set-up, sequential.
	var fA, fB *openFile
	if hasA {
		fA = w.create(sA)
	}
	if hasB && !e.isAborted() {
		fB = w.create(sB)
	}
	if hasC && !e.isAborted() {
		w.create(sC)
	}
	if e.isAborted() {
		return
	}

	// The parked call.
	var (
		p        []byte
		off      int64
		hsN      *monHoleSource
		patN     holePattern
		idN      int
		parkDesc string
	)
	short := rng.IntN(2) == 0
	switch combo.parked {
	case gateShrinkTruncate, gateGrowTruncate:
		parkDesc = fmt.Sprintf("truncate f%d size=%d (was %d)", fA.m.id, tA, sA)
	case gateGrowWrite:
		switch rng.IntN(3) {
		case 0:
			off = sA - min(sA, rng.Int64N(20))
		case 1:
			off = sA
		default:
			off = sA + rng.Int64N(d)
		}
		p = w.fresh(tA - off)
		parkDesc = fmt.Sprintf("write f%d off=%d len=%d (size %d)", fA.m.id, off, len(p), sA)
	case gateNewFile:
		idN = e.nextID
		e.nextID++
		hsN, patN = w.holeSource(idN, d)
		parkDesc = fmt.Sprintf("newfile f%d size=%d hole=%s", idN, d, patternName(patN))
	case gateClose:
		parkDesc = fmt.Sprintf("close f%d (size %d)", fA.m.id, sA)
	}
	verdict := "succeeds"
	if combo.fails {
		verdict = "fails"
		if combo.parked == gateGrowWrite && short && len(p) > 1 {
			verdict = fmt.Sprintf("fails after storing %d bytes", len(p)/2)
		}
	}
	e.logOp(fmt.Sprintf("window: %s on its own goroutine, its base call parks and later %s", parkDesc, verdict))
	switch combo.parked {
	case gateShrinkTruncate:
		e.releasing(0, d)
	case gateClose:
		e.releasing(1, sA)
	}
	g := w.gp.arm(combo.parked, short)
	done := make(chan windowResult, 1)
	go func() {
		var res windowResult
		switch combo.parked {
		case gateShrinkTruncate, gateGrowTruncate:
			res.err = fA.f.Truncate(tA)
		case gateGrowWrite:
			res.n, res.err = fA.f.WriteAt(p, off)
		case gateNewFile:
			res.f, res.err = e.q.NewFile(hsN, uint64(d))
		case gateClose:
			res.err = fA.f.Close()
		}
		done <- res
	}()
	parked := false
	var res windowResult
	select {
	case <-g.arrived:
		parked = true
	case res = <-done:
		// The call returned without making the base call.
		w.gp.disarm()
		e.sit(sitWindowNotReached)
	}

	// The intruder, while the base call is parked.
	granted := false
	if parked {
		granted = w.intrude(combo, fB, x)
		g.verdict <- combo.fails
		res = <-done
	}
	if e.isAborted() {
		return
	}

	// The parked call has returned.
	e.logOp(fmt.Sprintf("window: %s returned", parkDesc))
	e.logResult(fmt.Sprintf("%d,%s", res.n, errClass(res.err)))
	failExpected := parked && combo.fails
	op := map[gateKind]string{gateShrinkTruncate: "truncate", gateGrowTruncate: "truncate", gateGrowWrite: "write", gateNewFile: "newfile", gateClose: "close"}[combo.parked]
	takes := combo.parked == gateGrowTruncate || combo.parked == gateGrowWrite || combo.parked == gateNewFile
	switch {
	case combo.parked == gateClose:
		// Whatever Close returns, the file is gone.
		w.remove(fA)
		if res.err != nil && !(failExpected && isInjected(res.err)) {
			e.violate("unexpected-error op=close code="+errClass(res.err)+" schedule="+tag, res.err.Error())
			return
		}
		if c := fA.hs.closed.Load(); c != 1 {
			e.violate("hole-source-not-closed-once", fmt.Sprintf("after Close of file %d its hole source was closed %d times", fA.m.id, c))
			return
		}
	case res.err == nil:
		if failExpected {
			e.violate("error-swallowed op="+op+" schedule="+tag, fmt.Sprintf("the base call of %q failed, but the call succeeded", parkDesc))
			return
		}
		switch combo.parked {
		case gateShrinkTruncate:
			fA.m.truncate(tA)
		case gateGrowTruncate:
			fA.m.truncate(tA)
			e.acquired(0, d, tag)
		case gateGrowWrite:
			if res.n != len(p) {
				e.violate("short-write-without-error", fmt.Sprintf("WriteAt(len %d, off %d) = (%d, nil)", len(p), off, res.n))
				return
			}
			fA.m.write(p, off)
			e.acquired(0, d, tag)
		case gateNewFile:
			w.files = append(w.files, &openFile{f: res.f, m: newFileModel(idN, d, patN, d, e.c.SS), hs: hsN})
			e.acquired(1, d, tag)
		}
	case failExpected && isInjected(res.err):
		switch combo.parked {
		case gateShrinkTruncate:
			// The file keeps its size, and with it its quota.
			fA.m.failedShrink(tA)
			e.acquired(0, d, tag)
		case gateGrowWrite:
			if res.n < 0 || res.n > len(p) {
				e.violate("write-count-out-of-range", fmt.Sprintf("WriteAt(len %d) returned n=%d", len(p), res.n))
				return
			}
			fA.m.write(p[:res.n], off)
			e.acquired(0, fA.m.size-sA, tag)
		}
	case takes && res.n == 0 && isQuotaErr(res.err, "quota reached") && granted && !combo.fits:
		// The space went to the intruder first: a decision made late,
		// but a consistent one.
		e.sit(sitWindowParkedDenied)
	case takes && isQuotaErr(res.err, "quota reached"):
		e.violate("quota-decision-differs op="+op+" expected=granted schedule="+tag, fmt.Sprintf("%q was denied although %d of %d bytes were free when it was made and the intruder (granted: %v) did not need any of them: %v", parkDesc, slack+d, maxBytes, granted, res.err))
		return
	default:
		e.violate("unexpected-error op="+op+" code="+errClass(res.err)+" schedule="+tag, fmt.Sprintf("%q: %v", parkDesc, res.err))
		return
	}
	if parked {
		e.sit(tag)
	}
	if e.isAborted() {
		return
	}

	// Quiescent: the files are what the calls reported, the lower bounds
	// are exact, and exactly the rest of the quota is available.
	e.filesOpen, e.bytesUsed = len(w.files), 0
	for _, of := range w.files {
		e.checkLen(of, tag)
		e.verifyWindow(of, 0, of.m.size, tag)
		e.bytesUsed += of.m.size
	}
	if e.isAborted() {
		return
	}
	if hf, hb := e.heldFiles.Load(), e.heldBytes.Load(); hf != int64(e.filesOpen) || hb != e.bytesUsed {
		panic(fmt.Sprintf("verif harness: %s: lower bounds (%d files, %d bytes) differ from the models (%d files, %d bytes)", tag, hf, hb, e.filesOpen, e.bytesUsed))
	}
	e.probeQuota(tag)
	e.probeFiles(tag)

	// Close everything, in a random order.
	for len(w.files) > 0 && !e.isAborted() {
		of := w.files[rng.IntN(len(w.files))]
		w.remove(of)
		e.logOp(fmt.Sprintf("close f%d (size %d)", of.m.id, of.m.size))
		e.releasing(1, of.m.size)
		err := of.f.Close()
		e.logResult(errClass(err))
		if err != nil || of.hs.closed.Load() != 1 {
			e.violate("unexpected-error op=close code="+errClass(err), fmt.Sprintf("Close = %v, hole source closed %d times", err, of.hs.closed.Load()))
		}
	}
	e.filesOpen, e.bytesUsed = 0, 0
	e.checkNothingHeld()
	e.finalProofs()
}

// intrude makes the intruder's call and reports whether it was granted.
func (w *windowCase) intrude(combo windowCombo, fB *openFile, x int64) bool {
	e := w.e
	var n int
	var err error
	var apply func()
	op := "newfile"
	switch combo.intruder {
	case intruderWriter:
		op = "write"
		off := fB.m.size + e.rng.Int64N(x)
		p := w.fresh(fB.m.size + x - off)
		e.logOp(fmt.Sprintf("window: intruder write f%d off=%d len=%d (size %d)", fB.m.id, off, len(p), fB.m.size))
		n, err = fB.f.WriteAt(p, off)
		if err == nil && n != len(p) {
			e.violate("short-write-without-error", fmt.Sprintf("WriteAt(len %d, off %d) = (%d, nil)", len(p), off, n))
			return false
		}
		apply = func() {
			fB.m.write(p, off)
			e.acquired(0, x, w.tag)
		}
	case intruderGrowTruncate:
		op = "truncate"
		e.logOp(fmt.Sprintf("window: intruder truncate f%d size=%d (was %d)", fB.m.id, fB.m.size+x, fB.m.size))
		err = fB.f.Truncate(fB.m.size + x)
		apply = func() {
			fB.m.truncate(fB.m.size + x)
			e.acquired(0, x, w.tag)
		}
	case intruderNewFileSized, intruderNewFileEmpty:
		id := e.nextID
		e.nextID++
		hs, pattern := w.holeSource(id, x)
		e.logOp(fmt.Sprintf("window: intruder newfile f%d size=%d hole=%s", id, x, patternName(pattern)))
		var f filesystem.FileReadWriter
		f, err = e.q.NewFile(hs, uint64(x))
		apply = func() {
			w.files = append(w.files, &openFile{f: f, m: newFileModel(id, x, pattern, x, e.c.SS), hs: hs})
			e.acquired(1, x, w.tag)
		}
	}
	e.logResult(fmt.Sprintf("%d,%s", n, errClass(err)))
	switch {
	case err == nil:
		apply()
		e.sit(sitWindowIntruderGranted)
		return true
	case n == 0 && isQuotaErr(err, "quota reached"):
		if combo.fits {
			e.violate("quota-decision-differs op="+op+" expected=granted schedule="+w.tag, fmt.Sprintf("the intruder asked for %d bytes and a file, which are free before, during and after the parked call (%d of %d files open, quota %d bytes), and was denied: %v", x, len(w.files), e.c.MaxFiles, e.c.MaxBytes, err))
			return false
		}
		e.sit(sitWindowIntruderDenied)
		return false
	default:
		e.violate("unexpected-error op="+op+" code="+errClass(err)+" schedule="+w.tag, fmt.Sprintf("intruder: (%d, %v)", n, err))
		return false
	}
}

// runQuotaWindowRound runs every window of the list once.
func runQuotaWindowRound(r *ev.Run, round int) {
	for ci := range windowCombos {
		runQuotaWindow(r, round, ci)
	}
}
