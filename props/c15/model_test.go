package c15

import "bytes"

// fileModel is the reference model of one pool file: a plain byte array.
// content[o] is the byte a read at o must return for every o < size:
// the most recently written byte, or the hole source's byte (pattern
// below holeLimit, null beyond) if o was never written since it last
// became part of the file.
type fileModel struct {
	id        int
	size      int64
	content   []byte
	unknown   []bool // after a failed shrink: byte may be content, 0 or hole byte
	nUnknown  int
	pattern   holePattern
	holeLimit int64

	// Bookkeeping for situation classification only.
	ss               int
	allocated        map[int64]bool
	shrunkIntoSector bool
	// After a failed shrink the real file may hold fewer sectors than
	// "allocated" says (upper bound only) until a successful shrink to
	// at most uncertainFrom.
	allocUncertain bool
	uncertainFrom  int64
}

func newFileModel(id int, size int64, pattern holePattern, holeLimit int64, ss int) *fileModel {
	m := &fileModel{id: id, pattern: pattern, holeLimit: holeLimit, ss: ss, allocated: map[int64]bool{}}
	m.grow(size)
	return m
}

func (m *fileModel) holeAt(o int64) byte {
	if o < m.holeLimit {
		return m.pattern.at(o)
	}
	return 0
}

func (m *fileModel) grow(size int64) {
	if size <= m.size {
		return
	}
	if int64(cap(m.content)) < size {
		// Grow geometrically; normally the arrays are preallocated.
		nc := make([]byte, m.size, 2*size)
		copy(nc, m.content)
		m.content = nc
		nu := make([]bool, m.size, 2*size)
		copy(nu, m.unknown)
		m.unknown = nu
	}
	m.content = m.content[:size]
	m.unknown = m.unknown[:size]
	clear(m.content[m.size:])
	clear(m.unknown[m.size:])
	for o := m.size; o < size && o < m.holeLimit; o++ {
		m.content[o] = m.pattern.at(o)
	}
	m.size = size
}

func (m *fileModel) shrink(size int64) {
	if size >= m.size {
		return
	}
	for o := size; o < m.size; o++ {
		if m.unknown[o] {
			m.nUnknown--
		}
	}
	m.content = m.content[:size]
	m.unknown = m.unknown[:size]
	m.size = size
	if size < m.holeLimit {
		m.holeLimit = size
	}
	m.dropSectors(size)
}

func (m *fileModel) dropSectors(size int64) {
	first := (size + int64(m.ss) - 1) / int64(m.ss)
	for s := range m.allocated {
		if s >= first {
			delete(m.allocated, s)
		}
	}
}

// truncate applies a successful Truncate.
func (m *fileModel) truncate(size int64) {
	if size < m.size {
		m.shrink(size)
	} else {
		m.grow(size)
	}
}

// failedShrink applies a Truncate(size) that returned an error: the
// bytes that would have been cut off may or may not have been discarded.
func (m *fileModel) failedShrink(size int64) {
	for o := size; o < m.size; o++ {
		if !m.unknown[o] {
			m.unknown[o] = true
			m.nUnknown++
		}
	}
}

// write applies the first n bytes of a WriteAt(p, off).
func (m *fileModel) write(p []byte, off int64) {
	if len(p) == 0 {
		return
	}
	m.grow(off + int64(len(p)))
	copy(m.content[off:], p)
	for o := off; o < off+int64(len(p)); o++ {
		if m.unknown[o] {
			m.unknown[o] = false
			m.nUnknown--
		}
	}
	for s := off / int64(m.ss); s <= (off+int64(len(p))-1)/int64(m.ss); s++ {
		m.allocated[s] = true
	}
}

// matches compares bytes read at off with the model. Returns the offset
// of the first mismatch or -1.
func (m *fileModel) matches(got []byte, off int64) int64 {
	if len(got) == 0 {
		return -1
	}
	want := m.content[off : off+int64(len(got))]
	if m.nUnknown == 0 {
		if bytes.Equal(got, want) {
			return -1
		}
	}
	for i := range got {
		o := off + int64(i)
		if got[i] == want[i] {
			continue
		}
		if m.unknown[o] && (got[i] == 0 || got[i] == m.holeAt(o)) {
			continue
		}
		return o
	}
	return -1
}

// zeroOK tells whether every byte in [from, to) may legitimately be part
// of a hole (reads as null bytes).
func (m *fileModel) zeroOK(from, to int64) int64 {
	for o := from; o < to; o++ {
		if m.content[o] != 0 && !m.unknown[o] {
			return o
		}
	}
	return -1
}

func (m *fileModel) maxAllocatedSector() int64 {
	max := int64(-1)
	for s := range m.allocated {
		if s > max {
			max = s
		}
	}
	return max
}
