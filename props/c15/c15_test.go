// Package c15 checks property C15: every file obtained from the file pool
// behaves as its own sparse byte array, and sectors and quota are conserved.
//
// Real code under observation: QuotaEnforcingFilePool over
// BlockDeviceBackedFilePool over BitmapSectorAllocator (pkg/filesystem/pool).
// Harness-owned: the memory block device (poisons freed sectors, rejects I/O
// on sectors that are not allocated), a monitor wrapped around the real
// sector allocator, pattern hole sources, a base pool that can fail NewFile,
// and a byte-array reference model per file.
package c15

import (
	"crypto/sha256"
	"encoding/hex"
	"encoding/json"
	"fmt"
	"hash"
	"io"
	"math/rand/v2"
	"os"
	"runtime/debug"
	"strings"
	"sync"
	"sync/atomic"
	"testing"

	"github.com/buildbarn/bb-remote-execution/pkg/filesystem/pool"
	"github.com/buildbarn/bb-storage/pkg/filesystem"

	"google.golang.org/grpc/codes"
	"google.golang.org/grpc/status"

	"verif/internal/ev"
)

type cfg struct {
	SS         int     `json:"sector_size"`
	Capacity   int     `json:"capacity_sectors"`
	MaxFiles   int     `json:"max_files"`
	MaxBytes   int64   `json:"max_bytes"`
	Slots      int     `json:"slots"`
	Steps      int     `json:"steps"`
	FaultP     float64 `json:"fault_p"`
	ClampP     float64 `json:"clamp_p"`
	EOFAtEnd   bool    `json:"device_eof_at_end"`
	Profile    string  `json:"profile"`
	MaxLogical int64   `json:"max_logical_size"`
	NoQuota    bool    `json:"no_quota_layer"`
}

type openFile struct {
	f  filesystem.FileReadWriter
	m  *fileModel
	hs *monHoleSource
}

// env is one pool instance plus its monitors and models.
type env struct {
	r       *ev.Run
	c       cfg
	mode    string // "stepped" or "concurrent"
	caseIdx int
	rng     *rand.Rand

	dev   *memDevice
	mon   *monAllocator
	base  *faultyPool
	q     pool.FilePool
	plan  faultPlan
	slots []*openFile

	filesOpen int
	bytesUsed int64
	nextID    int

	mu      sync.Mutex // protects ops/aborted/sits in concurrent mode
	ops     []string
	aborted bool
	sits    map[string]int
	h       hash.Hash
	curOp   string

	scratchBuf []byte
	payloadBuf []byte

	// Lower bounds of what the quota layer has handed out (concurrent
	// modes, see contention_test.go).
	heldFiles atomic.Int64
	heldBytes atomic.Int64

	// Name of the gated window this pool went through (window_test.go);
	// added to the signatures of the final quota proofs.
	schedule string
}

func newEnv(r *ev.Run, c cfg, mode string, caseIdx int, rng *rand.Rand) *env {
	e := &env{r: r, c: c, mode: mode, caseIdx: caseIdx, rng: rng, sits: map[string]int{}, h: sha256.New()}
	stepped := mode == "stepped"
	e.dev = newMemDevice(c.SS, c.Capacity, e)
	e.dev.eofAtEnd = c.EOFAtEnd
	e.mon = newMonAllocator(pool.NewBitmapSectorAllocator(uint32(c.Capacity)), c.Capacity, e, stepped)
	e.mon.dev = e.dev
	e.dev.mon = e.mon
	if stepped {
		e.dev.plan = &e.plan
		if c.ClampP > 0 {
			e.mon.clamp = func(maximum int) int {
				if maximum > 1 && e.rng.Float64() < c.ClampP {
					return 1 + e.rng.IntN(maximum)
				}
				return maximum
			}
		}
	}
	e.base = &faultyPool{base: pool.NewBlockDeviceBackedFilePool(e.dev, e.mon, c.SS)}
	if stepped {
		e.base.plan = &e.plan
	}
	if c.NoQuota {
		// The block device backed pool on its own: its argument
		// checks are otherwise shadowed by the quota layer.
		e.q = e.base
	} else {
		e.q = pool.NewQuotaEnforcingFilePool(e.base, uint64(c.MaxFiles), uint64(c.MaxBytes))
	}
	e.slots = make([]*openFile, c.Slots)
	return e
}

func (e *env) violate(rule, detail string) {
	e.mu.Lock()
	e.aborted = true
	ops := append([]string(nil), e.ops...)
	cur := e.curOp
	e.mu.Unlock()
	if len(ops) > 400 {
		ops = ops[len(ops)-400:]
	}
	e.r.Violation("C15 "+rule, detail, map[string]any{
		"seed": e.r.Seed(), "mode": e.mode, "case": e.caseIdx, "cfg": e.c,
		"operations_before": ops, "failing_operation": cur, "detail": detail,
	})
}

func (e *env) isAborted() bool {
	e.mu.Lock()
	defer e.mu.Unlock()
	return e.aborted
}

func (e *env) sit(name string) {
	e.mu.Lock()
	e.sits[name]++
	e.mu.Unlock()
	e.r.Situation(name)
}

func (e *env) logOp(desc string) {
	e.mu.Lock()
	e.ops = append(e.ops, desc)
	e.curOp = desc
	e.mu.Unlock()
}

func (e *env) logResult(res string) {
	e.mu.Lock()
	if n := len(e.ops); n > 0 {
		e.ops[n-1] += " -> " + res
		fmt.Fprintf(e.h, "%s\n", e.ops[n-1])
	}
	e.mu.Unlock()
}

// begin prepares the monitors for one stepped operation on file owner.
func (e *env) begin(owner int, desc string, faults []faultKind) {
	e.logOp(desc)
	e.mon.currentOwner = int32(owner)
	e.mon.resetOp()
	e.plan = faultPlan{}
	if len(faults) > 0 && e.c.FaultP > 0 && e.rng.Float64() < e.c.FaultP {
		k := faults[e.rng.IntN(len(faults))]
		e.plan.arm(k, []int{0, 0, 1, 2, 3}[e.rng.IntN(5)], e.rng.IntN(2) == 0)
		e.ops[len(e.ops)-1] += fmt.Sprintf(" [armed %v cd=%d short=%v]", k, e.plan.countdown, e.plan.short)
	}
}

func (e *env) end() {
	e.plan.disarm()
	e.mon.currentOwner = -1
}

func errClass(err error) string {
	switch {
	case err == nil:
		return "ok"
	case err == io.EOF:
		return "EOF"
	case isInjected(err):
		return "injected"
	default:
		return status.Code(err).String()
	}
}

func isQuotaErr(err error, what string) bool {
	return status.Code(err) == codes.InvalidArgument && strings.Contains(status.Convert(err).Message(), what)
}

// ownedSectors counts the live sectors attributed to file id.
func (e *env) ownedSectors(id int) int {
	e.mon.mu.Lock()
	defer e.mon.mu.Unlock()
	n := 0
	for s := 1; s <= e.mon.capacity; s++ {
		if e.mon.owner[s] == int32(id)+1 {
			n++
		}
	}
	return n
}

// checkSectors compares the number of sectors the file holds with the
// number of sector-sized ranges of the file that hold written data.
func (e *env) checkSectors(of *openFile, op string) {
	if e.isAborted() {
		return
	}
	e.checkLen(of, op)
	owned, want := e.ownedSectors(of.m.id), len(of.m.allocated)
	if owned > want || (owned < want && !of.allocUpperOnly()) {
		e.violate("sectors-held-differ-from-written-ranges after="+op, fmt.Sprintf("file %d holds %d sectors, the model expects %d (size %d, sector size %d)", of.m.id, owned, want, of.m.size, e.c.SS))
	}
}

// checkLen compares Len() with the size of the model.
func (e *env) checkLen(of *openFile, op string) {
	if e.isAborted() {
		return
	}
	if l, err := of.f.Len(); err != nil || l != of.m.size {
		e.violate("len-differs-from-model after="+op, fmt.Sprintf("file %d: Len() = (%d, %v), model size %d", of.m.id, l, err, of.m.size))
	}
	e.r.Count("len_checks", 1)
}

func (of *openFile) allocUpperOnly() bool { return of.m.nUnknown > 0 || of.m.allocUncertain }

// verifyWindow reads [from, to) clipped to the file and compares it with
// the model (no faults armed).
func (e *env) verifyWindow(of *openFile, from, to int64, after string) {
	if e.isAborted() {
		return
	}
	if from < 0 {
		from = 0
	}
	if to > of.m.size {
		to = of.m.size
	}
	if to <= from {
		return
	}
	e.mon.currentOwner = int32(of.m.id)
	buf := e.scratch(int(to - from))
	n, err := of.f.ReadAt(buf, from)
	e.mon.currentOwner = -1
	if n != len(buf) || (err != nil && err != io.EOF) {
		e.violate("verify-read-failed after="+after, fmt.Sprintf("ReadAt(len %d, off %d) on file %d of size %d = (%d, %v)", len(buf), from, of.m.id, of.m.size, n, err))
		return
	}
	if o := of.m.matches(buf, from); o >= 0 {
		e.violate("read-differs-from-model after="+after, e.mismatchDetail(of, buf, from, o))
	}
	e.r.Count("bytes_verified", len(buf))
}

// scratch returns a read buffer that is only valid until the next call.
// It is filled with a byte that is neither null nor poison so that a read
// that leaves bytes untouched is noticed.
func (e *env) scratch(n int) []byte {
	if cap(e.scratchBuf) < n {
		e.scratchBuf = make([]byte, 2*n)
	}
	b := e.scratchBuf[:n]
	for i := range b {
		b[i] = 0xC3
	}
	return b
}

func (e *env) mismatchDetail(of *openFile, buf []byte, from, o int64) string {
	kind := "other"
	switch got := buf[o-from]; {
	case got == poisonByte:
		kind = "poison (contents of a freed or never written sector)"
	case got == 0:
		kind = "null byte"
	case got == of.m.pattern.at(o) && !of.m.pattern.zero:
		kind = "hole source byte"
	}
	return fmt.Sprintf("file %d size %d sector size %d: byte at offset %d (sector %d + %d) is %#02x [%s], model expects %#02x (hole limit %d)",
		of.m.id, of.m.size, e.c.SS, o, o/int64(e.c.SS), o%int64(e.c.SS), buf[o-from], kind, of.m.content[o], of.m.holeLimit)
}

// verifyAll compares every open file with its model: completely if full is
// set or the file is small, else a few windows.
func (e *env) verifyAll(after string, full bool) {
	ss := int64(e.c.SS)
	for _, of := range e.slots {
		if of == nil {
			continue
		}
		if full || of.m.size <= 4096 {
			e.verifyWindow(of, 0, of.m.size, after)
			continue
		}
		for i := 0; i < 3; i++ {
			o := e.pickOffset(of.m.size)
			e.verifyWindow(of, o-ss-1, o+ss+1, after)
		}
		e.verifyWindow(of, of.m.size-ss-1, of.m.size, after)
	}
}

// ---------------------------------------------------------------------------
// Operations (stepped mode).

func (e *env) quotaRemaining() int64 { return e.c.MaxBytes - e.bytesUsed }

func (e *env) opNewFile(slot int, size int64, pattern holePattern, holeLimit int64) {
	id := e.nextID
	e.nextID++
	pattern.id = id
	hs := &monHoleSource{pattern: pattern, limit: holeLimit, rep: e, plan: &e.plan}
	e.begin(id, fmt.Sprintf("newfile f%d slot=%d size=%d hole=%s limit=%d", id, slot, size, patternName(pattern), holeLimit), []faultKind{faultBaseNewFile})
	f, err := e.q.NewFile(hs, uint64(size))
	fired := e.plan.fired
	e.end()
	e.logResult(errClass(err))
	switch {
	case e.filesOpen >= e.c.MaxFiles:
		if !isQuotaErr(err, "File count quota reached") {
			e.violate("quota-decision-differs op=newfile expected=file-count-denied", fmt.Sprintf("NewFile with %d of %d files open returned %v", e.filesOpen, e.c.MaxFiles, err))
			return
		}
		e.sit("quota-denied")
	case size > 0 && size > e.quotaRemaining():
		if !isQuotaErr(err, "File size quota reached") {
			e.violate("quota-decision-differs op=newfile expected=size-denied", fmt.Sprintf("NewFile(size %d) with %d bytes remaining returned %v", size, e.quotaRemaining(), err))
			return
		}
		e.sit("quota-denied")
	case fired:
		if err == nil {
			e.violate("error-swallowed op=newfile", "base NewFile failed but NewFile succeeded")
			return
		}
		if size > 0 {
			e.sit("failed-newfile-with-size")
		} else {
			e.sit("failed-newfile-empty")
		}
		e.probeQuota("newfile/base-failure")
	default:
		if err != nil {
			e.violate("unexpected-error op=newfile code="+errClass(err), fmt.Sprintf("NewFile(size %d) with %d/%d files, %d bytes remaining: %v", size, e.filesOpen, e.c.MaxFiles, e.quotaRemaining(), err))
			return
		}
		of := &openFile{f: f, m: newFileModel(id, size, pattern, holeLimit, e.c.SS), hs: hs}
		e.slots[slot] = of
		e.filesOpen++
		e.bytesUsed += size
		e.checkLen(of, "newfile")
		if size > 0 {
			e.verifyWindow(of, 0, min(size, 4*int64(e.c.SS)+3), "newfile")
			e.verifyWindow(of, size-2*int64(e.c.SS)-3, size, "newfile")
		}
	}
}

func patternName(p holePattern) string {
	if p.zero {
		return "zero"
	}
	return fmt.Sprintf("pattern(run=%d)", p.runLen)
}

func (e *env) opWrite(of *openFile, off int64, p []byte) {
	m := of.m
	ss := int64(e.c.SS)
	e.begin(m.id, fmt.Sprintf("write f%d off=%d len=%d", m.id, off, len(p)), []faultKind{faultDevWrite, faultDevWrite, faultHoleRead, faultHoleShortRead})
	n, err := of.f.WriteAt(p, off)
	fired, firedKind, afterAlloc, short := e.plan.fired, e.plan.firedKind, e.plan.firedAfterOpAl, e.plan.short
	e.end()
	e.logResult(fmt.Sprintf("%d,%s", n, errClass(err)))

	if off < 0 {
		if n != 0 || status.Code(err) != codes.InvalidArgument {
			e.violate("invalid-argument-not-rejected op=write", fmt.Sprintf("WriteAt at offset %d = (%d, %v)", off, n, err))
		} else if e.c.NoQuota {
			e.sit("invalid-argument-without-quota-layer")
		}
		return
	}
	oldSize := m.size
	desired := off + int64(len(p))
	if desired > oldSize && desired-oldSize > e.quotaRemaining() {
		if n != 0 || !isQuotaErr(err, "File size quota reached") {
			e.violate("quota-decision-differs op=write expected=size-denied", fmt.Sprintf("WriteAt growing file %d from %d to %d with %d bytes remaining = (%d, %v)", m.id, oldSize, desired, e.quotaRemaining(), n, err))
			return
		}
		e.sit("quota-denied")
		e.probeQuota("write/quota-denied")
		return
	}
	if isQuotaErr(err, "quota reached") {
		e.violate("quota-decision-differs op=write expected=granted", fmt.Sprintf("WriteAt growing file %d from %d to %d with %d bytes remaining was denied: %v", m.id, oldSize, desired, e.quotaRemaining(), err))
		return
	}
	if n < 0 || n > len(p) {
		e.violate("write-count-out-of-range", fmt.Sprintf("WriteAt(len %d) returned n=%d", len(p), n))
		return
	}
	outcome := "ok"
	switch {
	case err == nil:
		if n != len(p) {
			e.violate("short-write-without-error", fmt.Sprintf("WriteAt(len %d, off %d) = (%d, nil)", len(p), off, n))
			return
		}
	case isInjected(err) && !fired:
		e.violate("unexpected-error op=write code=injected-but-not-fired", err.Error())
		return
	case fired && status.Code(err) != codes.ResourceExhausted:
		// The injected error, or the pool's own complaint about a
		// short read of the hole source.
		outcome = "fault"
	case status.Code(err) == codes.ResourceExhausted:
		outcome = "exhausted"
		if !e.mon.opExhausted {
			e.violate("unexpected-error op=write code=ResourceExhausted-without-allocator-failure", err.Error())
			return
		}
		e.sit("exhaustion")
		if n > 0 && n < len(p) {
			e.sit("exhaustion-mid-write")
		}
	default:
		e.violate("unexpected-error op=write code="+errClass(err), fmt.Sprintf("WriteAt(len %d, off %d) on file %d: %v", len(p), off, m.id, err))
		return
	}

	// Situations, judged on the model before the write is applied.
	if n > 0 {
		last := (off + int64(n) - 1) / ss
		maxAlloc := m.maxAllocatedSector()
		for s := off / ss; s <= last; s++ {
			if !m.allocated[s] && s < maxAlloc {
				e.sit("write-fills-hole-mid-file")
				break
			}
		}
		if e.mon.opAllocCalls >= 2 && e.mon.opShortAllocs >= 1 {
			e.sit("allocation-split-across-fragments")
		}
		if off > oldSize {
			e.sit("write-beyond-eof-leaves-gap")
		}
	}
	if e.mon.opReuse {
		e.sit("sector-reused-by-another-file")
	}
	if fired {
		e.sit("fault-" + firedKind.String())
		if firedKind == faultDevWrite && afterAlloc {
			e.sit("failed-device-write-after-allocation")
		}
		if firedKind == faultDevWrite && short && n > 0 {
			e.sit("short-device-write")
		}
		if firedKind == faultHoleRead && e.mon.opAllocCalls > 0 {
			e.sit("failed-hole-read-after-allocation")
		}
	}

	m.write(p[:n], off)
	if m.size > oldSize {
		e.bytesUsed += m.size - oldSize
		if m.shrunkIntoSector {
			m.shrunkIntoSector = false
			e.sit("shrink-into-sector-then-regrow")
		}
	}
	e.checkSectors(of, "write/"+outcome)
	e.verifyWindow(of, off-ss-2, off+int64(len(p))+ss+2, "write/"+outcome)
	if oldSize < off-ss-2 {
		// The gap between the old end of file and the write.
		e.verifyWindow(of, oldSize-ss-2, oldSize+ss+2, "write/"+outcome)
		if mid := e.pickOffset(off); mid > oldSize {
			e.verifyWindow(of, mid-2, mid+ss+2, "write/"+outcome)
		}
	}
	if err != nil {
		e.probeQuota("write/" + outcome)
	}
}

func (e *env) opTruncate(of *openFile, size int64) {
	m := of.m
	ss := int64(e.c.SS)
	faults := []faultKind{faultDevWrite, faultHoleTruncate, faultBaseTruncate}
	if size > m.size {
		// Growing performs no I/O below the base pool's file.
		faults = []faultKind{faultBaseTruncate}
	}
	e.begin(m.id, fmt.Sprintf("truncate f%d size=%d (was %d)", m.id, size, m.size), faults)
	err := of.f.Truncate(size)
	fired, firedKind := e.plan.fired, e.plan.firedKind
	e.end()
	e.logResult(errClass(err))

	if size < 0 {
		if status.Code(err) != codes.InvalidArgument {
			e.violate("invalid-argument-not-rejected op=truncate", fmt.Sprintf("Truncate(%d) = %v", size, err))
		} else if e.c.NoQuota {
			e.sit("invalid-argument-without-quota-layer")
		}
		return
	}
	oldSize := m.size
	if size > oldSize && size-oldSize > e.quotaRemaining() {
		if !isQuotaErr(err, "File size quota reached") {
			e.violate("quota-decision-differs op=truncate expected=size-denied", fmt.Sprintf("Truncate growing file %d from %d to %d with %d bytes remaining = %v", m.id, oldSize, size, e.quotaRemaining(), err))
			return
		}
		e.sit("quota-denied")
		e.probeQuota("truncate/quota-denied")
		return
	}
	outcome := "ok"
	switch {
	case err == nil:
		if size < oldSize && size%ss != 0 && m.allocated[size/ss] {
			m.shrunkIntoSector = true
			e.sit("shrink-into-allocated-sector")
		}
		if size > oldSize && m.shrunkIntoSector {
			m.shrunkIntoSector = false
			e.sit("shrink-into-sector-then-regrow")
		}
		if size <= m.uncertainFrom {
			m.allocUncertain = false
			m.uncertainFrom = 0
		}
		m.truncate(size)
		e.bytesUsed += size - oldSize
	case isInjected(err) && fired:
		outcome = "fault"
		e.sit("fault-" + firedKind.String())
		if size < oldSize {
			m.failedShrink(size)
			if !m.allocUncertain || size < m.uncertainFrom {
				m.uncertainFrom = size
			}
			m.allocUncertain = true
			e.sit("failed-shrink")
		} else if size > oldSize {
			// Nothing may have changed, and the quota reserved
			// for the growth has to be returned (probed below).
			e.sit("failed-grow")
		}
	default:
		e.violate("unexpected-error op=truncate code="+errClass(err), fmt.Sprintf("Truncate(%d) on file %d of size %d: %v", size, m.id, oldSize, err))
		return
	}
	e.checkSectors(of, "truncate/"+outcome)
	lo, hi := min(size, oldSize), max(size, oldSize)
	e.verifyWindow(of, lo-2*ss-2, lo+2*ss+2, "truncate/"+outcome)
	if hi > lo+2*ss+2 {
		e.verifyWindow(of, hi-ss-2, hi, "truncate/"+outcome)
		if mid := lo + e.rng.Int64N(hi-lo); true {
			e.verifyWindow(of, mid-2, mid+ss+2, "truncate/"+outcome)
		}
	}
	if err != nil {
		e.probeQuota("truncate/" + outcome)
	}
}

func (e *env) opRead(of *openFile, off int64, length int) {
	m := of.m
	e.begin(m.id, fmt.Sprintf("read f%d off=%d len=%d", m.id, off, length), []faultKind{faultDevRead, faultHoleRead, faultDevShortRead, faultHoleShortRead})
	buf := e.scratch(length)
	n, err := of.f.ReadAt(buf, off)
	fired, firedKind := e.plan.fired, e.plan.firedKind
	e.end()
	e.logResult(fmt.Sprintf("%d,%s", n, errClass(err)))
	if off < 0 {
		if n != 0 || status.Code(err) != codes.InvalidArgument {
			e.violate("invalid-argument-not-rejected op=read", fmt.Sprintf("ReadAt at offset %d = (%d, %v)", off, n, err))
		}
		return
	}
	want := int64(length)
	if off >= m.size {
		want = 0
	} else if off+want > m.size {
		want = m.size - off
	}
	if n < 0 || int64(n) > want {
		e.violate("read-count-out-of-range", fmt.Sprintf("ReadAt(len %d, off %d) on file of size %d returned n=%d", length, off, m.size, n))
		return
	}
	if o := m.matches(buf[:n], off); n > 0 && o >= 0 {
		e.violate("read-differs-from-model after=read", e.mismatchDetail(of, buf, off, o))
		return
	}
	switch {
	case fired && err != nil && err != io.EOF:
		// The injected error, or the pool's own complaint about a
		// short read of the device or hole source.
		e.sit("fault-" + firedKind.String())
	case err == nil || err == io.EOF:
		if int64(n) != want {
			e.violate("short-read-without-error", fmt.Sprintf("ReadAt(len %d, off %d) on file of size %d = (%d, %v)", length, off, m.size, n, err))
			return
		}
		if err == nil && n < length {
			e.violate("short-read-without-eof", fmt.Sprintf("ReadAt(len %d, off %d) on file of size %d = (%d, nil)", length, off, m.size, n))
			return
		}
		if err == io.EOF && off+int64(length) < m.size {
			e.violate("eof-before-end-of-file", fmt.Sprintf("ReadAt(len %d, off %d) on file of size %d = (%d, EOF)", length, off, m.size, n))
			return
		}
	default:
		e.violate("unexpected-error op=read code="+errClass(err), fmt.Sprintf("ReadAt(len %d, off %d) on file %d: %v", length, off, m.id, err))
		return
	}
	e.r.Count("bytes_verified", n)
}

func (e *env) seek(of *openFile, off int64, rt filesystem.RegionType) (int64, error) {
	e.mon.currentOwner = int32(of.m.id)
	defer func() { e.mon.currentOwner = -1 }()
	return of.f.GetNextRegionOffset(off, rt)
}

func (e *env) opSeek(of *openFile, off int64, rt filesystem.RegionType) {
	m := of.m
	name := map[filesystem.RegionType]string{filesystem.Data: "data", filesystem.Hole: "hole"}[rt]
	e.begin(m.id, fmt.Sprintf("seek f%d off=%d type=%s", m.id, off, name), []faultKind{faultHoleSeek})
	r, err := of.f.GetNextRegionOffset(off, rt)
	fired := e.plan.fired
	e.end()
	e.logResult(fmt.Sprintf("%d,%s", r, errClass(err)))
	if fired && isInjected(err) {
		e.sit("fault-holeSeek")
		return
	}
	switch {
	case off < 0:
		if status.Code(err) != codes.InvalidArgument {
			e.violate("invalid-argument-not-rejected op=seek", fmt.Sprintf("GetNextRegionOffset(%d) = (%d, %v)", off, r, err))
		}
		return
	case off >= m.size:
		if err != io.EOF {
			e.violate("seek-past-eof-not-eof type="+name, fmt.Sprintf("GetNextRegionOffset(%d, %s) on file of size %d = (%d, %v)", off, name, m.size, r, err))
		}
		return
	}
	if err != nil && err != io.EOF {
		e.violate("unexpected-error op=seek code="+errClass(err), err.Error())
		return
	}
	switch rt {
	case filesystem.Data:
		end := r
		if err == io.EOF {
			end = m.size
		} else if r < off || r >= m.size {
			e.violate("seek-result-out-of-range type=data", fmt.Sprintf("GetNextRegionOffset(%d, data) on file of size %d = %d", off, m.size, r))
			return
		}
		if o := m.zeroOK(off, end); o >= 0 {
			e.violate("seek-data-skips-nonzero-bytes", fmt.Sprintf("GetNextRegionOffset(%d, data) on file %d of size %d = (%d, %v), but offset %d holds %#02x", off, m.id, m.size, r, err, o, m.content[o]))
			return
		}
		if end > off {
			e.sit("seek-data-skips-hole")
		}
	case filesystem.Hole:
		if err == io.EOF || r < off || r > m.size {
			e.violate("seek-result-out-of-range type=hole", fmt.Sprintf("GetNextRegionOffset(%d, hole) on file of size %d = (%d, %v)", off, m.size, r, err))
			return
		}
		if r < m.size {
			// The hole that starts at r extends to the next data.
			d, derr := e.seek(of, r, filesystem.Data)
			end := d
			if derr == io.EOF {
				end = m.size
			} else if derr != nil || d < r || d >= m.size {
				e.violate("seek-result-out-of-range type=data", fmt.Sprintf("GetNextRegionOffset(%d, data) on file of size %d = (%d, %v)", r, m.size, d, derr))
				return
			}
			if end == r {
				e.violate("seek-hole-offset-is-data", fmt.Sprintf("GetNextRegionOffset(%d, hole) = %d but GetNextRegionOffset(%d, data) = %d", off, r, r, d))
				return
			}
			if o := m.zeroOK(r, end); o >= 0 {
				e.violate("seek-hole-contains-nonzero-bytes", fmt.Sprintf("GetNextRegionOffset(%d, hole) on file %d = %d, next data at %d, but offset %d holds %#02x", off, m.id, r, end, o, m.content[o]))
				return
			}
			e.sit("seek-hole-inside-file")
		}
	}
}

func (e *env) opClose(slot int) {
	of := e.slots[slot]
	m := of.m
	held := e.ownedSectors(m.id)
	e.begin(m.id, fmt.Sprintf("close f%d (size %d, %d sectors)", m.id, m.size, len(m.allocated)), []faultKind{faultHoleClose})
	err := of.f.Close()
	fired := e.plan.fired
	e.end()
	e.logResult(errClass(err))
	// Whether or not Close reports an error, the file is gone: its
	// sectors and its share of the quota have to be available again.
	e.slots[slot] = nil
	e.filesOpen--
	e.bytesUsed -= m.size
	if err != nil && !(fired && isInjected(err)) {
		e.violate("unexpected-error op=close code="+errClass(err), err.Error())
		return
	}
	if c := of.hs.closed.Load(); c != 1 {
		e.violate("hole-source-not-closed-once", fmt.Sprintf("after Close of file %d its hole source was closed %d times", m.id, c))
		return
	}
	sig := "sectors-not-freed-on-close"
	if fired {
		sig += " after=close/fault"
		e.sit("fault-" + faultHoleClose.String())
		if held > 0 {
			e.sit("failed-close-holding-sectors")
		}
		if m.size > 0 {
			e.sit("failed-close-holding-quota")
		}
	}
	if n := e.ownedSectors(m.id); n != 0 {
		e.violate(sig, fmt.Sprintf("file %d still holds %d sectors after Close = %v", m.id, n, err))
		return
	}
	if fired {
		e.probeQuota("close/fault")
	}
}

// probeQuota proves the number of bytes still available: a fresh file can be
// grown to exactly that size and not one byte further.
func (e *env) probeQuota(after string) {
	if e.isAborted() || e.c.NoQuota || e.filesOpen >= e.c.MaxFiles {
		return
	}
	rem := e.quotaRemaining()
	e.logOp(fmt.Sprintf("probe-quota expecting %d bytes remaining", rem))
	hs := &monHoleSource{pattern: holePattern{zero: true}, rep: e, plan: &e.plan}
	f, err := e.q.NewFile(hs, 0)
	if err != nil {
		e.violate("quota-files-not-conserved after="+after, fmt.Sprintf("with %d of %d files open NewFile(0) failed: %v", e.filesOpen, e.c.MaxFiles, err))
		return
	}
	res := "ok"
	if err := f.Truncate(rem); err != nil {
		res = "less"
		e.violate("quota-bytes-not-conserved after="+after+" direction=less-available", fmt.Sprintf("model: %d of %d bytes used, but growing a fresh file to %d bytes failed: %v", e.bytesUsed, e.c.MaxBytes, rem, err))
	} else if err := f.Truncate(rem + 1); err == nil {
		res = "more"
		e.violate("quota-bytes-not-conserved after="+after+" direction=more-available", fmt.Sprintf("model: %d of %d bytes used, but a fresh file could be grown to %d bytes", e.bytesUsed, e.c.MaxBytes, rem+1))
	} else if !isQuotaErr(err, "File size quota reached") {
		e.violate("unexpected-error op=probe-truncate code="+errClass(err), err.Error())
	}
	if err := f.Close(); err != nil {
		e.violate("unexpected-error op=close code="+errClass(err), err.Error())
	}
	e.logResult(res)
	e.r.Count("quota_probes", 1)
}

// finalProofs runs after every file was closed: the whole quota and every
// sector must be available again.
func (e *env) finalProofs() {
	if e.isAborted() {
		return
	}
	e.logOp("final-proofs")
	allClosed := "all-closed"
	if e.schedule != "" {
		allClosed += " schedule=" + e.schedule
	}
	// File count.
	var fs []filesystem.FileReadWriter
	for i := 0; i < e.c.MaxFiles && !e.c.NoQuota; i++ {
		f, err := e.q.NewFile(&monHoleSource{pattern: holePattern{zero: true}, rep: e}, 0)
		if err != nil {
			e.violate("quota-files-not-conserved after="+allClosed, fmt.Sprintf("after closing everything only %d of %d files can be created: %v", i, e.c.MaxFiles, err))
			break
		}
		fs = append(fs, f)
	}
	if len(fs) == e.c.MaxFiles && !e.c.NoQuota {
		if f, err := e.q.NewFile(&monHoleSource{pattern: holePattern{zero: true}, rep: e}, 0); err == nil {
			fs = append(fs, f)
			e.violate("quota-files-not-conserved after="+allClosed+" direction=more-available", fmt.Sprintf("more than %d files can be created", e.c.MaxFiles))
		}
	}
	for _, f := range fs {
		f.Close()
	}
	if e.isAborted() {
		return
	}
	e.probeQuota(allClosed)
	if e.isAborted() {
		return
	}

	// Sectors.
	if l := e.mon.live(); l != 0 {
		e.violate("sectors-leaked after=all-closed", fmt.Sprintf("%d of %d sectors are still allocated after every file was closed", l, e.c.Capacity))
		return
	}
	e.logOp("final-proofs: allocate every sector")
	saveClamp, saveStepped := e.mon.clamp, e.mon.stepped
	e.mon.clamp, e.mon.stepped = nil, true
	type run struct {
		first uint32
		n     int
	}
	var runs []run
	total := 0
	for total < e.c.Capacity {
		first, n, err := e.mon.AllocateContiguous(e.c.Capacity - total)
		if err != nil {
			e.violate("capacity-not-restored after=all-closed", fmt.Sprintf("only %d of %d sectors can be allocated after every file was closed: %v", total, e.c.Capacity, err))
			break
		}
		if n < 1 {
			return
		}
		runs = append(runs, run{first, n})
		total += n
	}
	if total == e.c.Capacity && !e.isAborted() {
		if first, n, err := e.mon.AllocateContiguous(1); err == nil {
			e.violate("capacity-exceeded", fmt.Sprintf("sector allocator of %d sectors handed out a further run (%d, %d)", e.c.Capacity, first, n))
			return
		}
	}
	for i, ru := range runs {
		if i%2 == 0 {
			e.mon.FreeContiguous(ru.first, ru.n)
		} else {
			l := make([]uint32, 0, ru.n+1)
			for s := 0; s < ru.n; s++ {
				l = append(l, ru.first+uint32(s))
			}
			l = append(l, 0)
			e.mon.FreeList(l)
		}
	}
	e.mon.clamp, e.mon.stepped = saveClamp, saveStepped
	if e.isAborted() {
		return
	}

	// And through the pool: one file that fills the device completely.
	total64 := int64(e.c.Capacity) * int64(e.c.SS)
	if total64 <= e.c.MaxBytes && (total64 <= 1<<13 || (total64 <= 1<<18 && e.caseIdx%8 == 0)) {
		e.logOp("final-proofs: one file filling the device")
		hs := &monHoleSource{pattern: holePattern{zero: true}, rep: e}
		f, err := e.q.NewFile(hs, 0)
		if err != nil {
			e.violate("quota-files-not-conserved after=all-closed", err.Error())
			return
		}
		p := make([]byte, total64)
		for i := range p {
			p[i] = byte(1 + i%251)
		}
		e.mon.currentOwner = 1 << 20
		n, err := f.WriteAt(p, 0)
		if n != len(p) || err != nil {
			e.violate("capacity-not-restored after=all-closed via=file", fmt.Sprintf("writing %d bytes (the whole device) into a fresh file = (%d, %v)", len(p), n, err))
		} else {
			q := make([]byte, total64)
			if n, err := f.ReadAt(q, 0); n != len(q) || (err != nil && err != io.EOF) || string(q) != string(p) {
				e.violate("read-differs-from-model after=fill-device", fmt.Sprintf("reading back the file that fills the device = (%d, %v)", n, err))
			}
		}
		f.Close()
		e.mon.currentOwner = -1
		if l := e.mon.live(); l != 0 && !e.isAborted() {
			e.violate("sectors-leaked after=all-closed", fmt.Sprintf("%d sectors still allocated after closing the file that filled the device", l))
		}
	}
}

// ---------------------------------------------------------------------------
// Case generation.

var sectorSizes = []int{1, 7, 16, 512, 4096}

var capacities = map[int][]int{
	1:    {1, 2, 5, 63, 64, 65, 130, 700, 2500},
	7:    {1, 2, 3, 9, 64, 65, 129, 300},
	16:   {1, 2, 4, 17, 64, 128, 200},
	512:  {1, 2, 3, 8, 33, 64, 70},
	4096: {1, 2, 3, 5, 9, 16},
}

func genCfg(rng *rand.Rand, i int) cfg {
	c := cfg{}
	c.SS = sectorSizes[i%len(sectorSizes)]
	caps := capacities[c.SS]
	c.Capacity = caps[rng.IntN(len(caps))]
	c.Slots = 2 + rng.IntN(7)
	total := int64(c.SS) * int64(c.Capacity)
	c.MaxLogical = min(4*total+3*int64(c.SS)+5, max(1<<14, 20*int64(c.SS)))
	c.MaxFiles = 1 + rng.IntN(c.Slots+1)
	switch rng.IntN(5) {
	case 0:
		c.MaxBytes = max(1, total/2)
	case 1:
		c.MaxBytes = total
	case 2:
		c.MaxBytes = 3*total + 7
	default:
		c.MaxBytes = 1 << 40
	}
	c.Steps = 50 + rng.IntN(351)
	if c.SS >= 512 {
		c.Steps = 50 + rng.IntN(150)
	}
	switch rng.IntN(4) {
	case 0:
		c.FaultP = 0.05
	case 1:
		c.FaultP = 0.15
	}
	if rng.IntN(3) == 0 {
		c.ClampP = 0.4
	}
	c.EOFAtEnd = rng.IntN(3) == 0
	c.Profile = "random"
	if i%7 == 5 {
		c.NoQuota = true
		c.MaxFiles = 1 << 20
		c.MaxBytes = 1 << 60
	}
	if i%4 == 3 {
		c.Profile = "fragment"
		c.MaxFiles = max(c.MaxFiles, min(c.Slots, 4))
		c.MaxBytes = max(c.MaxBytes, 1<<40)
	}
	return c
}

// pickOffset returns an offset clustered around sector boundaries.
func (e *env) pickOffset(limit int64) int64 {
	ss := int64(e.c.SS)
	if limit < 1 {
		limit = 1
	}
	sectors := limit/ss + 1
	var s int64
	if e.rng.IntN(3) == 0 {
		s = e.rng.Int64N(min(sectors, 4))
	} else {
		s = e.rng.Int64N(sectors)
	}
	var d int64
	switch e.rng.IntN(6) {
	case 0, 1:
		d = 0
	case 2:
		d = int64(e.rng.IntN(5)) - 2
	case 3:
		d = ss - 1
	default:
		d = e.rng.Int64N(ss)
	}
	o := s*ss + d
	if o < 0 {
		o = 0
	}
	if o > limit {
		o = limit
	}
	return o
}

func (e *env) pickLength() int {
	ss := e.c.SS
	var n int
	switch e.rng.IntN(10) {
	case 0:
		n = 0
	case 1:
		n = 1
	case 2:
		n = ss - 1
	case 3:
		n = ss
	case 4:
		n = ss + 1
	case 5:
		n = 2*ss + e.rng.IntN(3) - 1
	case 6:
		n = 3*ss + e.rng.IntN(ss+1)
	case 7:
		n = e.rng.IntN(5*ss + 1)
	case 8:
		n = 1 + e.rng.IntN(ss)
	default:
		// Large: a good part of the device.
		n = e.rng.IntN(e.c.SS*e.c.Capacity + ss + 1)
	}
	if n < 0 {
		n = 0
	}
	if n > 1<<15 {
		n = 1 << 15
	}
	return n
}

// payload returns n non-null bytes that are unique to this write with high
// probability, so that a read identifies the write it saw.
func (e *env) payload(n int) []byte {
	if cap(e.payloadBuf) < n {
		e.payloadBuf = make([]byte, 2*n)
	}
	p := e.payloadBuf[:n]
	x := e.rng.Uint64() | 1
	for i := range p {
		x ^= x << 13
		x ^= x >> 7
		x ^= x << 17
		b := byte(x)
		if b == 0 || b == poisonByte {
			b = 0x5A
		}
		p[i] = b
	}
	return p
}

func (e *env) openSlots() []int {
	var l []int
	for i, of := range e.slots {
		if of != nil {
			l = append(l, i)
		}
	}
	return l
}

func (e *env) freeSlots() []int {
	var l []int
	for i, of := range e.slots {
		if of == nil {
			l = append(l, i)
		}
	}
	return l
}

func (e *env) genNewFile(slot int) {
	ss := int64(e.c.SS)
	var size int64
	switch e.rng.IntN(5) {
	case 0, 1:
		size = 0
	case 2:
		size = e.pickOffset(e.c.MaxLogical / 2)
	case 3:
		size = ss*int64(1+e.rng.IntN(4)) + int64(e.rng.IntN(3)) - 1
	default:
		size = 1 + e.rng.Int64N(3*ss)
	}
	if size < 0 {
		size = 0
	}
	pattern := holePattern{zero: true}
	limit := int64(0)
	if size > 0 && e.rng.IntN(2) == 0 {
		pattern = holePattern{salt: e.rng.Uint64N(1 << 20)}
		switch e.rng.IntN(3) {
		case 0:
			pattern.runLen = 0
		case 1:
			pattern.runLen = 1 + e.rng.Int64N(2*ss)
		default:
			pattern.runLen = ss
		}
		limit = size
		if e.rng.IntN(4) == 0 {
			limit = e.rng.Int64N(size + 1)
		}
	}
	e.opNewFile(slot, size, pattern, limit)
}

func (e *env) step() {
	open, free := e.openSlots(), e.freeSlots()
	if len(open) == 0 || (len(free) > 0 && e.rng.IntN(12) == 0) {
		if len(free) > 0 {
			e.genNewFile(free[e.rng.IntN(len(free))])
			return
		}
	}
	slot := open[e.rng.IntN(len(open))]
	of := e.slots[slot]
	m := of.m
	ss := int64(e.c.SS)
	switch k := e.rng.IntN(100); {
	case k < 40:
		off := e.pickOffset(e.c.MaxLogical)
		if e.rng.IntN(3) == 0 {
			off = e.pickOffset(m.size + ss)
		}
		n := e.pickLength()
		if off+int64(n) > e.c.MaxLogical+int64(n) {
			off = e.c.MaxLogical
		}
		if e.rng.IntN(60) == 0 {
			off = -1 - e.rng.Int64N(3)
		}
		e.opWrite(of, off, e.payload(n))
	case k < 60:
		off := e.pickOffset(m.size + 2)
		if e.rng.IntN(60) == 0 {
			off = -1
		}
		e.opRead(of, off, e.pickLength())
	case k < 78:
		var size int64
		switch e.rng.IntN(6) {
		case 0:
			size = 0
		case 1:
			size = m.size + int64(e.rng.IntN(5)) - 2
		case 2:
			size = e.pickOffset(m.size)
		case 3:
			size = e.pickOffset(e.c.MaxLogical)
		case 4:
			size = (m.size / ss) * ss
		default:
			size = m.size/2 + int64(e.rng.IntN(3)) - 1
		}
		if e.rng.IntN(60) == 0 {
			size = -1
		} else if size < 0 {
			size = 0
		}
		e.opTruncate(of, size)
	case k < 92:
		rt := filesystem.Data
		if e.rng.IntN(2) == 0 {
			rt = filesystem.Hole
		}
		off := e.pickOffset(m.size + 1)
		if e.rng.IntN(40) == 0 {
			off = -1
		}
		e.opSeek(of, off, rt)
	case k < 97:
		e.opClose(slot)
	default:
		if err := of.f.Sync(); err != nil {
			e.violate("unexpected-error op=sync code="+errClass(err), err.Error())
		}
		e.verifyAll("periodic", false)
	}
}

// fragmentPrelude forces exhaustion and maximal fragmentation: several files
// take one sector each in turn until the device is full, every other file
// is closed, and the survivors then write ranges that must be assembled from
// the scattered free sectors.
func (e *env) fragmentPrelude() {
	ss := int64(e.c.SS)
	nfiles := min(e.c.MaxFiles, e.c.Slots, 2+e.rng.IntN(5))
	for i := 0; i < nfiles && !e.isAborted(); i++ {
		e.opNewFile(i, 0, holePattern{zero: true}, 0)
	}
	files := e.openSlots()
	if len(files) == 0 {
		return
	}
	saveP := e.c.FaultP
	e.c.FaultP = 0
	next := make([]int64, len(e.slots))
	for round := 0; round < e.c.Capacity+2 && !e.isAborted(); round++ {
		full := false
		for _, s := range files {
			if e.isAborted() {
				break
			}
			before := e.mon.live()
			e.opWrite(e.slots[s], next[s]*ss, e.payload(int(ss)))
			next[s] += 1 + int64(e.rng.IntN(2))
			if e.mon.live() == before {
				full = true
				break
			}
		}
		if full || e.mon.live() == e.c.Capacity {
			break
		}
	}
	for i, s := range files {
		if i%2 == 1 && !e.isAborted() {
			e.opClose(s)
		}
	}
	e.c.FaultP = saveP
	for _, s := range e.openSlots() {
		if e.isAborted() {
			break
		}
		free := e.c.Capacity - e.mon.live()
		if free == 0 {
			break
		}
		n := min(int64(free)*ss+int64(e.rng.IntN(3))*ss, 1<<15)
		e.opWrite(e.slots[s], next[s]*ss+int64(e.rng.IntN(2)), e.payload(int(n)))
		e.verifyWindow(e.slots[s], 0, e.slots[s].m.size, "fragment-prelude")
	}
}

func (e *env) runStepped() {
	if e.c.Profile == "fragment" {
		e.fragmentPrelude()
	}
	for i := 0; i < e.c.Steps && !e.isAborted(); i++ {
		e.step()
		if i%25 == 24 {
			e.verifyAll("periodic", false)
			if e.rng.IntN(2) == 0 {
				e.probeQuota("periodic")
			}
		}
	}
	e.verifyAll("end-of-case", true)
	for _, s := range e.openSlots() {
		if e.isAborted() {
			break
		}
		e.opClose(s)
	}
	e.finalProofs()
}

func (e *env) finishCase() {
	e.r.Count("device_reads", int(e.dev.reads.Load()))
	e.r.Count("device_writes", int(e.dev.writes.Load()))
	e.r.Count("allocator_allocate_calls", int(e.mon.allocCalls.Load()))
	e.r.Count("allocator_free_calls", int(e.mon.freeCalls.Load()))
	e.r.Count("sectors_allocated", int(e.mon.sectorsAllocated.Load()))
	e.r.Count("sectors_freed", int(e.mon.sectorsFreed.Load()))
	e.r.Count("operations", len(e.ops))
	e.r.Hash(hex.EncodeToString(e.h.Sum(nil)[:12]), len(e.sits) > 0)
	if e.r.WantSample() {
		ops := e.ops
		if len(ops) > 60 {
			ops = ops[:60]
		}
		e.r.Sample(map[string]any{"mode": e.mode, "case": e.caseIdx, "cfg": e.c, "situations": e.sits, "operations": ops})
	}
}

func TestCheck(t *testing.T) {
	r := ev.Start("C15")
	defer r.Finish()
	// Large short-lived buffers: collect less often (the race runtime
	// makes every allocated byte expensive).
	defer debug.SetGCPercent(debug.SetGCPercent(400))
	r.SetRule("stepped cases: PRNG(seed, case) picks sector size (cycling 1,7,16,512,4096), capacity (1..2500 sectors, incl. 63/64/65/128), quotas, 2-8 file slots, fault and allocator-clamp rates, then 50-400 NewFile/WriteAt/ReadAt/Truncate/GetNextRegionOffset/Close operations with offsets clustered at sector boundaries (every 4th case starts with a scripted exhaust-and-fragment prelude); concurrent rounds: 2-8 goroutines with private files on one shared pool; quota windows: a fixed list of (parked base call x outcome x intruder x intruder sizing) interleavings of two calls on one quota pool, ordered by channel handshakes, sizes from PRNG(seed, round, combination). " +
		"A case is non-trivial if it hit at least one listed situation; distinct = distinct sha256 of the operation/result history.")
	r.Assume("FilePool handles are not thread-safe by contract: a file is only ever used by one goroutine; different files of one pool are used concurrently")
	r.Assume("hole sources have no data beyond the initial size of the file they are attached to")
	r.Assume("a device WriteAt that fails reports exactly the number of bytes it stored; device and hole-source faults have no other side effect")
	r.Assume("after a failed shrinking Truncate the bytes beyond the requested size may be either kept or discarded (old byte, null byte or hole-source byte accepted)")
	r.Assume("quota windows: a base call parked by the harness has had no effect yet; released with a failure, Truncate and NewFile have no effect, WriteAt has stored nothing or a prefix and reports its length, Close has closed the file")
	r.Assume("GetNextRegionOffset may over-report data (allocation granularity) but a reported hole must only contain null bytes")
	floors := []string{"write-fills-hole-mid-file", "shrink-into-sector-then-regrow", "allocation-split-across-fragments",
		"exhaustion-mid-write", "failed-newfile-with-size", "failed-device-write-after-allocation", "sector-reused-by-another-file",
		"fault-devRead", "fault-holeRead", "fault-holeTruncate", "fault-devShortRead", "fault-holeShortRead", "fault-holeSeek", "fault-baseTruncate", "failed-grow", "invalid-argument-without-quota-layer", "failed-shrink", "quota-denied", "seek-hole-inside-file", "concurrent-round",
		"fault-holeClose", "failed-close-holding-sectors", "failed-close-holding-quota",
		"concurrent-failed-device-write", "quota-contention-round", "quota-contention-denied"}

	stepped := func(i int) {
		rng := r.Rand(1, uint64(i))
		c := genCfg(rng, i)
		r.Case("stepped case=%d cfg=%+v", i, c)
		e := newEnv(r, c, "stepped", i, rng)
		e.runStepped()
		e.finishCase()
	}
	if rf := r.ReplayFile(); rf != "" {
		// Re-run exactly the recorded case (stepped cases are
		// deterministic; concurrent rounds are repeated).
		mode, idx, err := readReplay(rf)
		if err != nil {
			t.Fatalf("cannot read replay file %s: %v", rf, err)
		}
		if mode == "stepped" {
			stepped(idx)
		} else if mode == "concurrent" {
			for k := 0; k < 20; k++ {
				runConcurrentRound(r, idx)
			}
		} else if mode == "quota-window" {
			// Gated windows are deterministic as well.
			runQuotaWindow(r, idx/len(windowCombos), idx%len(windowCombos))
		} else {
			for k := 0; k < 20; k++ {
				runQuotaContentionRound(r, idx)
			}
		}
		return
	}
	floors = append(floors, windowFloors()...)
	for _, s := range floors {
		r.Floor(s, 3)
	}

	// VERIF_C15_PHASE=stepped|concurrent|contention|window runs one phase only
	// (debugging aid; the floors of the other phases are then missed).
	phase := os.Getenv("VERIF_C15_PHASE")

	nStepped := r.Pick(800, 12000)
	for i := 0; i < nStepped && (phase == "" || phase == "stepped"); i++ {
		stepped(i)
	}

	nRounds := r.Pick(40, 600)
	for i := 0; i < nRounds && (phase == "" || phase == "concurrent"); i++ {
		runConcurrentRound(r, i)
	}

	nContention := r.Pick(16, 200)
	for i := 0; i < nContention && (phase == "" || phase == "contention"); i++ {
		runQuotaContentionRound(r, i)
	}

	// Gated windows of the quota layer: every (parked base call, outcome,
	// intruder, sizing) combination of a fixed list per round, sizes from
	// the PRNG.
	nWindow := r.Pick(6, 120)
	for i := 0; i < nWindow && (phase == "" || phase == "window"); i++ {
		runQuotaWindowRound(r, i)
	}
}

// readReplay extracts mode and case index from a witness file.
func readReplay(path string) (string, int, error) {
	b, err := os.ReadFile(path)
	if err != nil {
		return "", 0, err
	}
	var f struct {
		Witness struct {
			Mode string `json:"mode"`
			Case int    `json:"case"`
		} `json:"witness"`
	}
	if err := json.Unmarshal(b, &f); err != nil {
		return "", 0, err
	}
	return f.Witness.Mode, f.Witness.Case, nil
}
