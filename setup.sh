#!/bin/sh
# setup_cmd: builds everything the checks need from files on disk only
# (offline). Warms the race-instrumented build cache so that the first
# quick check does not pay the ~3 minute cold build.
set -e
cd "$(dirname "$0")"
TC=/root/go/pkg/mod/golang.org/toolchain@v0.0.1-go1.26.6.linux-amd64/bin/go
if [ -x "$TC" ]; then
	GO="$TC"; export GOTOOLCHAIN=local GOSUMDB=off
else
	GO=go; export GOTOOLCHAIN=auto; unset GOSUMDB
fi
export GOFLAGS=-mod=mod GOPROXY=off
unset GOROOT
mkdir -p bin .work evidence
$GO build -o bin/gofail go.etcd.io/gofail
# Compile (not run) every claimed harness once with the race detector.
for id in $(python3 -c "import json; print(' '.join(c['property_id'].lower() for c in json.load(open('MANIFEST.json'))['checks']))"); do
	d=props/$id
	[ -d "$d" ] || continue
	$GO test -c -race -tags verif -o /dev/null "./$d" || { echo "setup: $d failed to build"; exit 1; }
done
echo "setup ok"
